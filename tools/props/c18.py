"""C18 — timing and hardware-access statements are emitted exactly.

proof   : Props/C18.v: csleep(n) = n cycles and a frame condition for all states; csleep sequences
          are protected; optimize keeps protected instructions and inline assembly in order
corr-M  : the csleep table, exhaustively (every argument -3..14): code emitted by the compiler vs
          Model/Csleep.v ; optimize vs model is C02's correspondence (re-run here on hw-heavy code)
corr-S  : programs mixing load/store/strobe/csleep/asm with ordinary code: the executed trace of
          protected instructions / inline lines at -O0, -O1.. must be the one the C semantics
          prescribes (extracted CSem), and final states must agree; marked(opt) = marked(gen)
"""
import re
import os
from lib.common import *
from lib.asmcorr import *
from lib.gen_c import gen_program, Prog
from lib.oracle import *
from lib.pipeline import describe_state, describe_run

LEVEL = 'proof'
THEOREMS = ['C18_csleep_cycles', 'C18_csleep_protected', 'C18_optimize_keeps_marked', 'C18_inline_fixed']

CSLEEP_EVENTS = {2: ['NOP'], 3: ['ST:DUMMY'], 4: ['NOP'] * 2, 5: ['DEC:DUMMY'], 6: ['NOP'] * 3, 7: ['PHA', 'PLA'],
                 8: ['NOP'] * 4, 9: ['DEC:DUMMY', 'NOP', 'NOP'], 10: ['DEC:DUMMY', 'DEC:DUMMY']}


def expected_events(ctrace):
    out = []
    for e in ctrace:
        k, _, v = e.partition(':')
        if k == 'load':
            out.append('LD')
        elif k == 'store':
            out.append('ST:' + v)
        elif k == 'strobe':
            out.append('ST:' + v)
        elif k == 'csleep':
            out.extend(CSLEEP_EVENTS.get(int(v), ['?csleep%s' % v]))
        elif k == 'asm':
            out.append('N:' + v)
    return out


def machine_events(mtrace):
    out = []
    for e in mtrace:
        if e.startswith('N'):
            out.append('N:' + e[1:])
            continue
        m, _, op = e[1:].partition(':')
        op = bytes.fromhex(op).decode() if op and op != '-' else ''
        # a parameter p of function f is the symbol f_p in the emitted code; the C trace names it p
        # (the generator names parameters <function>p<k>)
        op = re.sub(r'^(\w+?)_(\1p\d+)$', r'\2', op)
        if m in ('LDA', 'TXA', 'TYA'):
            out.append('LD')
        elif m == 'STA':
            out.append('ST:' + op)
        elif m == 'TAX':
            out.append('ST:X')
        elif m == 'TAY':
            out.append('ST:Y')
        elif m in ('BEQ', 'BNE', 'BCC', 'BCS', 'BMI', 'BPL'):
            continue          # flag-critical branches of comparisons are protected too; not hardware events
        elif m == 'DEC':
            out.append('DEC:' + op)
        else:
            out.append(m)
    return out


def marked_of(lines):
    return [l for l in lines if (l[0] == 'I' and l[2]) or l[0] == 'N']


def run(ctx):
    quick = ctx.tier == 'quick'
    rng = ctx.rng
    ctx.proof_stage('Props.C18', THEOREMS)
    # the hardware-statement templates (Model/GenHw.v: traces and cycles proved on Sem.run) and their pinned listings
    hw_v = os.path.join(COQ, 'Props', 'C18hw.v')
    hw_mism = []
    if os.path.exists(hw_v):
        ctx.proof_stage('Props.C18hw', re.findall(r'^Theorem (\w+)', open(hw_v).read(), re.M))
        from lib.gentpl import run_gentpl
        ntpl_, allm_ = run_gentpl()
        hw_mism = [m_ for m_ in allm_ if m_['id'].startswith('hlisting')]
        ctx.cov['correspondence']['corr-M hardware-statement templates'] = {'templates': 5, 'mismatches': len(hw_mism), 'exhaustive': True}
    # ---------------- corr-M: csleep table, exhaustive
    args_range = list(range(-3, 15))
    jobs = ''.join(compile_job('cs%d' % n, 'void main() { csleep(%d); }' % n, args=['-O0'], want=['funcs']) for n in args_range)
    impl = run_ccv(jobs)
    model = run_model(''.join(unit_job('cs%d' % n, 'csleep:%d' % n, []) for n in args_range))
    table_mism = []
    for n, ri, rm in zip(args_range, impl, model):
        if ri['status'] == 'ok':
            il = ('ok', norm_lines(ri['funcs'][0]['gen']))
        elif ri['status'] == 'err':
            il = ('error', [])
        else:
            il = (ri['status'], [])
        ml = (rm['status'], rm['lines'])
        if il != ml:
            table_mism.append({'n': n, 'impl': il, 'model': ml})
    ctx.cov['evaluations'] += len(args_range)
    ctx.cov['correspondence']['corr-M csleep table'] = {'arguments': [args_range[0], args_range[-1]], 'exhaustive': True,
                                                         'mismatches': len(table_mism)}
    # ---------------- corr-S: traces and states
    n_prog = 400 if quick else 8000
    progs = {'p%d' % i: gen_program(rng, dict(hw=True, bait=(i % 3 == 0), inline=(i % 2 == 1), signed=False, shorts=(i % 2 == 0), max_stmts=8)) for i in range(n_prog)}
    # string literals and asm texts inside groups that are NOT selected, in front of the program: they must not
    # disturb the texts of the asm statements that are
    for i, (k, p_) in enumerate(list(progs.items())):
        if i % 3 == 1:
            p_.prefix = rng.choice(['#if 0\nchar *hidden = "nop ; zz";\nvoid hid() { asm("nop ; hidden"); }\n#endif\n',
                                    '#ifdef NOT_DEFINED_Q\nvoid hid() { asm("nop ; one"); asm("nop ; two", 2); }\n#else\n#endif\n',
                                    '#if 1\n#else\nconst char msg[] = "a" "b";\n#endif\n'])
    # fixed: several asm statements after groups that are not selected and hold literals of their own
    from lib.gen_c import Prog
    for j, pre in enumerate(['#if 0\nchar *hidden = "nop ; zz";\n#endif\n', '#ifdef NOPE\nvoid hid() { asm("nop ; one"); asm("nop ; two", 2); }\n#endif\n',
                             '#if 1\n#else\nconst char msg[] = "nop ; a" "nop ; b";\n#endif\n', '']):
        q_ = Prog()
        q_.globals = [('unsigned char', 'a', None, None, ''), ('unsigned char *const', 'HW0', 0x02, None, '')]
        q_.funcs = []
        q_.main = [('asm', 'nop ; first f%d' % j), ('expr', ('inc', 'x++', ('var', 'a'))), ('asm', 'nop ; second f%d' % j), ('strobe', 'HW0'), ('asm', 'nop ; third f%d' % j)]
        q_.prefix = pre
        progs['lit%d' % j] = q_
    # fixed: asm texts written as adjacent string literals (on one line, over several lines), next to a data literal
    for j, cuts in enumerate([[3], [5, 9], [1], [4, 5, 6], [11]]):
        q_ = Prog()
        q_.globals = [('unsigned char', 'a', None, None, ''), ('unsigned char *const', 'HW0', 0x02, None, '')]
        q_.prefix = 'const char msg[] = "x" "y";\n' if j % 2 else ''
        q_.funcs = []
        q_.main = [('asm', 'nop ; first g%d' % j, None, cuts), ('expr', ('inc', 'x++', ('var', 'a'))), ('asm', 'nop ; second g%d' % j, 1, [c + 2 for c in cuts]),
                   ('strobe', 'HW0'), ('asm', 'nop ; third g%d' % j, None, cuts[:1])]
        progs['adj%d' % j] = q_
    # the fixed enumeration of register / hardware-statement shapes (tools/lib/gen_c.py, family E)
    from lib.gen_c import directed_programs
    progs.update({k: p for k, p in directed_programs().items() if k.startswith('E_') or k.startswith('H_asm')})
    viol = []
    stats = {'agree': 0, 'undecided': 0, 'unsupported': 0, 'programs': 0, 'events': 0}
    marked_bad = []
    levels = ['-O0', '-O1'] if quick else ['-O0', '-O1', '-O2', '-O3']
    # (a) marked(opt) == marked(gen) on every function; (b) csleep changes no variable and no
    # register: the program with its csleep statements deleted ends in the same state
    import copy
    from lib.pipeline import compile_variants, coexec
    from lib.coexec import observable

    def strip_csleep(stmts):
        out = []
        for st in stmts:
            if st[0] == 'csleep':
                continue
            if st[0] == 'block':
                st = ('block', strip_csleep(st[1]))
            elif st[0] == 'if':
                st = ('if', st[1], strip_csleep([st[2]])[0] if strip_csleep([st[2]]) else ('block', []),
                      (strip_csleep([st[3]])[0] if strip_csleep([st[3]]) else ('block', [])) if st[3] is not None else None)
            elif st[0] == 'while':
                st = ('while', st[1], strip_csleep([st[2]])[0])
            elif st[0] == 'do':
                st = ('do', strip_csleep([st[1]])[0], st[2])
            elif st[0] == 'for':
                st = ('for', st[1], st[2], st[3], strip_csleep([st[4]])[0])
            elif st[0] == 'switch':
                st = ('switch', st[1], [(v, strip_csleep(b)) for v, b in st[2]], strip_csleep(st[3]) if st[3] is not None else None)
            out.append(st)
        return out
    twins = {}
    for pid, p in progs.items():
        q = copy.deepcopy(p)
        q.main = strip_csleep(q.main)
        for f in q.funcs:
            f['body'] = strip_csleep(f['body'])
        if q.source() != p.source():
            twins[pid] = q
    for O in levels:
        comp = compile_variants({k: {'with': p.source(), 'without': (twins[k].source() if k in twins else p.source())} for k, p in progs.items()},
                                {'with': [O], 'without': [O]})
        ok = {}
        for pid, vs in comp.items():
            r = vs['with']
            if r['status'] != 'ok':
                continue
            stats['programs'] += 1
            for f in r.get('funcs', []):
                if f.get('gen') is not None and f.get('opt') is not None:
                    if marked_of(norm_lines(f['gen'])) != marked_of(norm_lines(f['opt'])):
                        marked_bad.append({'why': 'optimiser changed the sequence of protected instructions / inline lines',
                                           'source': progs[pid].source(), 'function': f['name'], 'level': O})
            # a conditional branch right after inline assembly tests flags the compiler knows nothing about
            for f in r.get('funcs', []):
                ls = norm_lines(f['final']) if f.get('final') is not None else []
                for i_, l_ in enumerate(ls[:-1]):
                    if l_[0] == 'N':
                        nxt = next((x for x in ls[i_ + 1:] if x[0] in ('I', 'L', 'N')), None)
                        if nxt is not None and nxt[0] == 'I' and nxt[1] in ('BEQ', 'BNE', 'BMI', 'BPL', 'BCC', 'BCS'):
                            marked_bad.append({'why': 'a conditional branch (%s %s) directly follows inline assembly: it tests flags the source says nothing about' % (nxt[1], nxt[6]),
                                               'source': progs[pid].source(), 'function': f['name'], 'level': O})
            if pid in twins and vs['without']['status'] == 'ok':
                ok[pid] = vs
        ce = coexec(ok, 8 if quick else 24, rng, fuel=60000, small_index=True)
        # only states the C semantics decides: an out-of-range subscript may alias DUMMY, which csleep changes
        from lib.csem import cprog_record, run_csem
        ctext_ = []
        for pid, m in ce.items():
            t_, _ = cprog_record(pid, progs[pid], m['layout'], m['states'])
            ctext_.append(t_)
        cdec = run_csem(''.join(ctext_)) if ctext_ else {}
        for pid, m in ce.items():
            for k in range(len(m['states'])):
                if (cdec.get(pid, {}).get(k) or {}).get('tag') != 'ok':
                    stats['undecided'] += 1
                    continue
                a, b = m['runs']['with'].get(k), m['runs']['without'].get(k)
                if a is None or b is None:
                    raise HarnessError('missing co-execution result')
                stats['agree'] += 1
                if observable(a) != observable(b):
                    viol.append({'why': 'deleting the csleep statements changes the final state', 'level': O,
                                 'source': progs[pid].source(),
                                 'initial': describe_state(m['layout'], m['states'][k], m['watch']),
                                 'with': describe_run(m['layout'], a, m['watch']), 'without': describe_run(m['layout'], b, m['watch'])})
                    break
    # traces need the raw runs: redo with trace comparison through a dedicated pass at each level
    tviol, tstats = trace_pass(ctx, progs, levels, 6 if quick else 16, rng)
    ctx.cov['programs'] = n_prog
    ctx.cov['evaluations'] += stats['agree'] + tstats['compared']
    ctx.cov['distinct_nontrivial'] = tstats['nonempty_traces']
    ctx.cov['correspondence']['corr-S states'] = stats
    ctx.cov['correspondence']['corr-S traces'] = tstats
    ctx.cov['traces_validated_against_impl'] = tstats['compared']
    ctx.sample({'program': list(progs.values())[0].source()[:700]})
    # ---------------- verdict
    # a trace that differs from the C semantics' may be a wrong BRANCH of a known C01-class defect
    # (signed comparisons, ...): minimise the program while its trace still differs, attribute by feature
    from lib.shrink import shrink
    from lib.features import features
    open_f = [f for f in ctx.findings if f.get('status') == 'open' and f.get('features')]
    kept = []
    budget = 6 if quick else 40
    for v in tviol:
        if not v.get('vs_c') or budget <= 0:
            kept.append(v)
            continue
        budget -= 1
        lv = v['level']

        def batch(cands, lv=lv):
            ps = {'c%d' % i: c for i, c in enumerate(cands)}
            try:
                tv, _ = trace_pass(ctx, ps, [lv], 8, random.Random(5))
            except Exception:
                return [False] * len(cands)
            bad = set(x.get('pid') for x in tv if x.get('vs_c'))
            return [('c%d' % i) in bad for i in range(len(cands))]
        small = progs[v['pid']]
        if batch([small])[0]:
            small = shrink(small, batch, max_rounds=40)
        fs = features(small)
        att = [f for f in open_f if set(f['features']) <= fs]
        if att:
            ctx.known_finding(att[0]['id'], att[0]['text'])
            continue
        v['minimised_program'] = small.source()
        v['features'] = sorted(fs)
        kept.append(v)
    tviol = kept
    allv = marked_bad + tviol + viol
    known = {f['id']: f for f in ctx.findings if f.get('status') == 'open'}
    for v in allv[:3]:
        ctx.violation('hw', v)
    if hw_mism and not allv:
        ctx.violation_noinput('Model/GenHw.v no longer matches the generator: %s' % json.dumps(hw_mism[0])[:1500], 'corr-M:gen_hw')
    if table_mism and not allv:
        ctx.violation_noinput('csleep table of Model/Csleep.v no longer matches generate_csleep_statement: %s' % json.dumps(table_mism)[:2000],
                              'corr-M:csleep_table')
    ctx.cov['rule'] = ('csleep arguments -3..14 exhaustively; programs from tools/lib/gen_c.py with hw=True (load/store/strobe/csleep/asm '
                       'mixed with assignments to the same operands, in branches and loops); non-trivial = the C semantics prescribes a '
                       'non-empty event trace')
    ctx.cov['trusted_base'] = ['Coq 8.16.1 kernel, vm_compute', 'extraction of Model/Csleep.v, Model/Optimize.v, M6502/Sem.v, Src/CSem.v',
                               'harness ccv', 'M6502 cycle table as a datasheet transcription', 'event mapping between C statements and protected instructions (tools/props/c18.py)']
    ctx.assumptions = ['asm() text is opaque: only "nop" is given a meaning in co-execution',
                       'cycle exactness is proved on the model of the csleep table; the table is compared exhaustively with the code each run']


def trace_pass(ctx, progs, levels, nstates, rng):
    from lib.pipeline import compile_variants, funcs_of
    viol = []
    stats = {'compared': 0, 'nonempty_traces': 0, 'skipped_undecided': 0}
    srcs = {k: p.source() for k, p in progs.items()}
    comp = compile_variants(srcs, {O: [O] for O in levels})
    text = []
    ctext = []
    meta = {}
    for pid, vs in comp.items():
        if any(r['status'] != 'ok' for r in vs.values()):
            continue
        ref = vs[levels[0]]
        try:
            lay = make_layout(ref['vars'], [f['name'] for f in ref.get('funcs', [])])
        except LayoutError:
            continue
        states = small_index_states(rng, lay, nstates)
        mwatch = None
        for O in levels:
            t, mwatch = prog_record('%s@%s' % (pid, O), funcs_of(vs[O]), lay, states, fuel=60000)
            text.append(t)
        t, w = cprog_record(pid, progs[pid], lay, states)
        ctext.append(t)
        meta[pid] = (lay, states, w, mwatch)
    runs = run_sem(''.join(text)) if text else {}
    cr = run_csem(''.join(ctext)) if ctext else {}
    seen = set()
    stats['skipped_state_differs'] = 0
    stats['level_pairs_compared'] = 0
    for pid, (lay, states, cwatch, mwatch) in meta.items():
        for k in range(len(states)):
            # the optimiser neither removes, duplicates nor reorders: same trace at every level
            base = runs.get('%s@%s' % (pid, levels[0]), {}).get(k)
            for O in levels[1:]:
                m = runs.get('%s@%s' % (pid, O), {}).get(k)
                if base is None or m is None or base['tag'] != 'halt' or m['tag'] != 'halt':
                    continue
                stats['level_pairs_compared'] += 1
                if machine_events(base['trace']) != machine_events(m['trace']):
                    viol.append({'why': 'hardware-access trace differs between %s and %s' % (levels[0], O),
                                 levels[0]: machine_events(base['trace']), O: machine_events(m['trace']),
                                 'source': srcs[pid], 'initial': describe_state(lay, states[k], None)})
            c = cr.get(pid, {}).get(k)
            if c is None or c['tag'] != 'ok':
                stats['skipped_undecided'] += 1
                continue
            exp = expected_events(c['trace'])
            if exp:
                seen.add((pid, tuple(exp)))
            for O in levels:
                m = runs.get('%s@%s' % (pid, O), {}).get(k)
                if m is not None and m['tag'] == 'fault' and m.get('why') == 'unknown inline assembly':
                    # every asm text of these programs is one the machine model knows: another text was emitted
                    viol.append({'why': 'an asm statement was emitted with a text the source does not contain', 'level': O,
                                 'expected': exp, 'source': srcs[pid], 'pid': pid, 'vs_c': False,
                                 'initial': describe_state(lay, states[k], None)})
                    break
                if m is None or m['tag'] != 'halt':
                    continue
                if expected_vs_machine(cwatch, c, m, lay, mwatch):
                    # the emitted code computes something else than the source (property C01's
                    # business): its control flow cannot be trusted to reach the same statements
                    stats['skipped_state_differs'] += 1
                    continue
                stats['compared'] += 1
                got = machine_events(m['trace'])
                if got != exp:
                    viol.append({'why': 'executed hardware-access trace differs from the source\'s', 'level': O,
                                 'expected': exp, 'got': got, 'source': srcs[pid], 'pid': pid, 'vs_c': True,
                                 'initial': describe_state(lay, states[k], None)})
                    break
            else:
                continue
            break
    stats['nonempty_traces'] = len(seen)
    return viol, stats
