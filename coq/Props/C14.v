(** C14 — inlining is transparent: the structural half (see tools/props/c14.py for what is
    co-executed).  Statements only. *)
From Coq Require Import String Ascii List Bool NArith ZArith.
From CC Require Import Base.Str Asm.Lines Model.Optimize Model.OptSpec Model.InlineRename Proofs.OptFacts.
Import ListNotations.

(** the optimiser never moves or changes a label (so an inlined block keeps its entry/exit labels) *)
Theorem C14_optimize_noninstr_fixed : forall (c : code) (k : nat) (l : line),
  nth_error c k = Some l -> is_ins l = false -> nth_error (fst (optimize c)) k = Some l.
Proof. exact optimize_noninstr_fixed. Qed.

(** inlining appends exactly the renamed body and the exit label; nothing of the caller changes *)
Theorem C14_push_code_shape : forall dst body n,
  push_code dst body n = dst ++ map (rename_line n) body ++ [Lbl (".endofinline" ++ string_of_N n)%string].
Proof. intros. unfold push_code, append_code. rewrite <- app_assoc. reflexivity. Qed.

(** renaming keeps every instruction except the operand (and protection) of branches and jumps *)
Theorem C14_rename_keeps_instructions : forall n i,
  renames_operand (i_mn i) = false -> rename_line n (Ins i) = Ins i.
Proof. intros n i H. unfold rename_line. rewrite H. reflexivity. Qed.
