(** Extraction of the preprocessor model (engine "cpp"). *)
From Coq Require Import ExtrOcamlBasic ExtrOcamlString.
From CC Require Import Base.Str Model.Cpp.
Extraction Language OCaml.
Extraction "../build/ocaml/cpp_model.ml" run_cpp replace_all evaluate.
