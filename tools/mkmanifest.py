#!/usr/bin/env python3
"""Regenerates MANIFEST.json from the table below (keeps it schema-valid)."""
import json
import os

ROOT = os.path.abspath(os.path.join(os.path.dirname(__file__), '..'))
TB = ("Coq 8.16.1 kernel + vm_compute; no axioms (Print Assumptions: closed); extraction ExtrOcamlBasic/ExtrOcamlString; "
      "Rust harness ccv; hand-written Gallina models tied to /repo by the per-run correspondence; M6502/Isa.v as a datasheet transcription")

CLAIMED = {
    'C01': dict(cat='proof', technique='Coq proofs on the 6502 flag semantics and on a Gallina model of the generator\'s comparison lowering (branch sequences reach their label iff the C relation holds; negation / operand-swap tables), that model compared with the real generator on every cell each run + co-execution of generated programs on the extracted 6502 semantics against the extracted C semantics, failures minimised and attributed by feature',
                text='Proved on the 6502 semantics (Sem.run) for ALL machine states: 39 lowering templates (assignments, 8/16-bit arithmetic, ++/--, shifts, zero/sign extension) , 8 loop forms (for / while / do-while over memory counters and X / Y, with continue and break: termination and closed-form final values by an invariant rule for backward branches) the compositional control-flow rules (if / if-else / while / do-while / for with break / switch with fall-through and default, for arbitrary bodies given by a specification; 34 pinned listings), the calling convention (call rule on Sem.run with a program table for any call stack, arguments into static parameter cells, nested calls, results in conditions and loops; 17 pinned listings), truth values and ?: stored into 16-bit objects (both bytes; the pre-repair sequences refuted by execution; 12 pinned listings), pointer operations (dereference with Y parked and restored, indexed forms, address-of, 16-bit pointer arithmetic, read-modify-write through a pointer, under an explicit aliasing hypothesis; the open defect of `if (*p)` proved as a theorem; 17 pinned listings), updates of elements of 16-bit arrays (both bytes; 11 pinned listings) and 20 16-bit comparison forms compute the C value / take the C branch (signed 16-bit forms: exactly when the subtraction does not overflow; refuted otherwise), each template compared with the sequence the real generator emits on every run; the flags CMP leaves; the unsigned branch sequences are exact; the signed ones are exact when the 8-bit subtraction does not overflow and refuted otherwise (known finding); the CMP-less comparison with 0 is exact for signed operands and for exactly the cells == != <= on unsigned ones (the other three cells are refuted: known finding); the negation and operand-swap tables preserve the relation for all integers. The tables are compared with what the real generator emits on all 96 cells (operator x signedness x negation x swap x with/without CMP) each run. The generator as a whole (4 400 lines) is NOT modelled: seeded programs of the accepted subset are compiled at -O0/-O1 and co-executed against Src/CSem.v from boundary-biased states, a fixed enumeration of 1297 directed programs included, each also with its variables renamed to keyword-prefixed names (return_b, elsec, sizeofj, ...); a failing program is minimised and attributed to a known finding only by the features of its minimised form. Partial.',
                ref='DESIGN.md sections 6 C01 and 12'),
    'C15': dict(cat='proof', technique='Coq proofs that the rewrites are equivalences in the C semantics (commuted + & | ^ *, swapped comparisons, x + 1 as increment) and that the generator\'s swap / negation tables preserve the relation + exhaustive table correspondence + metamorphic co-execution of both spellings on the extracted 6502 semantics',
                text='The source-level equivalences are proved for all values in Src/CSem.v; the tables through which the generator canonicalises comparisons are proved relation-preserving and compared with the real generator on every cell; that the compiler emits equivalent code for two spellings is co-executed, not proved: every applicable rewrite site of generated programs is rewritten (commute, swap, compound assignment folded/unfolded, ++ as += 1, if/else with negated condition, for as while) and both spellings must end in the same state from the same initial states. A spelling the compiler rejects is a rejection, not a violation. Partial.',
                ref='DESIGN.md sections 6 C15 and 12'),
    'C03': dict(cat='proof', technique='Coq proof on a Gallina model of check_branches + per-run unit correspondence with the Rust + co-execution on the extracted 6502 semantics',
                text='Theorems (unbounded over line lists, states, flags): every conditional branch left by check_branches is within -128..127 when its label is unique; the repair skeleton exits exactly where the original branch (pair) did for every flag state; no panic when targets are defined; labels stay unique and defined; the iteration terminates; and GLOBAL soundness on the 6502 semantics: for every code without .fixN-style labels of its own, if the original halts in state s then the repaired code halts in the SAME state (C03_check_branches_sound / _run, by a window-replacement theorem for windows of different lengths), and the pipeline optimize-then-check_branches simulates the generated code (C03_pipeline_sound), also for whole programs with calls and returns (C03_check_branches_program_sound, C03_pipeline_program_sound / _run: what the compiler emits at -O1 for every function of a program simulates the unoptimised program on Sem.run_function; side conditions of the optimiser theorem: no stack instructions or inline assembly, known-compare rule not fired). Tied to src/assemble.rs by running the Rust and the extracted model on the same thousands of boundary-sweeping inputs each run, and by recomputing displacements / co-executing original vs repaired on the implementation\'s own output.',
                ref='DESIGN.md section 6 C03'),
    'C02': dict(cat='proof', technique='Coq proofs on a Gallina model of the peephole optimiser (structure for all line lists; per-instruction knowledge soundness and per-rule soundness on the 6502 semantics) + exact per-run correspondence with the Rust + -O0 vs -O1..3 co-execution',
                text='Proved for all line lists: the optimiser terminates, only turns unprotected instructions (or immediate compares) into Dummy or swaps LDA with SEC/CLC, never touches labels/inline/comments, invents nothing. Proved on the 6502 semantics (when Props/C02sem.v is present): the register-knowledge transfer function (register contents and which register N/Z describe) is sound for every instruction, each rewrite rule preserves the state up to N/Z, and a removed load either changes nothing or only N/Z while the next instruction(s) the look-ahead inspected redefine them whatever they were (removal_dead). The global simulation IS proved for straight-line code (optimize_straight_sound: for every line list without labels, branches, calls and stack operations whose operands pass a syntactic scan, executing the optimised list ends in a state equal to the state the original reaches, flags included, both on a straight-line executor and on Sem.run); for code with labels, branches and loops (optimize_cf_sound), and for WHOLE PROGRAMS with calls and returns at any nesting depth, recursion included (C02_optimize_program_sound / _run on Sem.run_function with a program table: if the original program halts in s, the per-function optimised program halts in a state with the same registers, flags and memory), under syntactic side conditions computed by boolean scans (no stack instructions, no inline assembly, pairwise different labels, the known-compare rule does not fire). Stack instructions, inline assembly, the known-compare rule and the converse direction are NOT proved; they are explored by co-executing -O0 against every other level on seeded programs with optimiser baits. Partial.',
                ref='DESIGN.md section 6 C02'),
    'C18': dict(cat='proof', technique='Coq proofs (csleep cycle/frame theorem on the 6502 cycle model; optimiser keeps protected instructions and inline assembly) + exhaustive csleep-table correspondence + trace co-execution against the extracted C semantics',
                text='csleep(n) is proved to take exactly n cycles and to change nothing but DUMMY and the free stack byte for every state, on a table compared exhaustively with the generator each run; the optimiser is proved never to remove, duplicate or reorder protected instructions and inline lines; executed event traces at every level are compared with the trace the C semantics prescribes, and deleting csleep statements must not change final states.',
                ref='DESIGN.md section 6 C18'),
    'C04': dict(cat='proof', technique='Coq proof over the whole finite domain of a Gallina model of asm() (size = encoding the assembler selects) + exhaustive per-run correspondence of that model with the real asm() through the verification hook + re-assembly of compiled functions by the extracted encoder',
                text='For every (mnemonic, operand kind, variable type/memory class/constness/constant address, byte selection, scheme) the model of asm() is proved to report the size of the encoding a 6502 assembler selects, the page of a constant-address object being decided by its address plus the printed offset (hypothesis var_wf: class Zeropage iff address < $100, checked each run on what the real front end produces); the model is compared with the real asm() on all ~95 000 cells every run (exhaustive); optimiser and branch repair are proved to only delete such instructions or add instructions of known real size; and every function of seeded programs is re-assembled by the extracted encoder and compared with size_bytes().',
                ref='DESIGN.md section 6 C04'),
    'C05': dict(cat='proof', technique='Coq proof on a model of the insertion-counter ordering (hash-map iteration = arbitrary permutation) + repeated compilation in one process and in fresh processes',
                text='Proved: sorting by the insertion counter yields one sequence for every permutation of the table, because every declaration history gives distinct counters (re-declarations keep their rank; the old defect is refuted by a two-permutation witness). The hash seed itself is outside the model: each program is compiled 12 times in-process and in several fresh processes, interleaved in shuffled order, and all dumps must be identical. Partial.',
                ref='DESIGN.md section 6 C05'),
    'C12': dict(cat='proof', technique='Coq proof that the depth-first marking equals reachability for every finite call tree + exact per-run correspondence of in-use sets + source-call-graph comparison',
                text='The model of compute_functions_actually_in_use is proved to compute exactly the reachable set (cycles included) and is compared with the real in-use set on the real call tree of every compiled program; that every call lowering records the call is checked against the call graph of the generated source (calls in every position, inline and nested).',
                ref='DESIGN.md section 6 C12'),
    'C13': dict(cat='proof', technique='Coq proofs (asm() accepts a data operand only when the 6502 has a mode; label suffixing injective and closed; repair and optimiser keep labels unique) + exhaustive asm() correspondence + Coq-extracted assembler front end run on all emitted code',
                text='Legality of everything asm() accepts for load/store/ALU/compare mnemonics is proved on the model compared exhaustively with the code; label uniqueness/definedness is proved preserved by inlining, optimisation and branch repair; the extracted front end (modes, label tables, symbols) runs on every function of label-heavy generated programs at every level. Known finding: user labels named like generated ones.',
                ref='DESIGN.md section 6 C13'),
    'C14': dict(cat='proof', technique='Coq proofs about append_code/push_code (shape, injective and closed renaming) + exact unit correspondence + co-execution of every program with and without the inline keyword',
                text='Proved: the shape of expansions, injective and closed label renaming; on the 6502 semantics (Sem.run): renaming invariance, embedding of a closed block, the expansion behaves like the body (C14_expansion_behaves_like_body), and BOTH spellings of a call do the same (C14_inline_equals_call and its converse: for a body without stack instructions, nested calls or indirect operands, under any call stack, `JSR f` with the out-of-line form of the body in the program table and the inline expansion reach the line after the call in states with equal A, X, Y, S, flags and memory except the two stack-page cells where JSR left its return markers). Not proved: bodies with nested calls or stack instructions, and the whole-program form for arbitrary surrounding code (the block-level statement composes; two whole programs are computed both ways): these are co-executed on the extracted 6502 semantics from identical states for all/part/none of the functions marked inline at every level, and twins are compared on assembled branch ranges. Partial.',
                ref='DESIGN.md section 6 C14'),
    'C16': dict(cat='exploration', technique='mutation fuzzing of near-valid programs under catch_unwind + watchdog, with Coq totality theorems for the modelled components',
                text='Totality of the modelled components (optimiser, branch repair, call-graph marking) is proved in Coq; the parser and generator are explored with token-level mutants, near-valid templates and random bytes under every option set, each compilation in a worker with a watchdog; outcomes must be Ok or an error located inside the input. Panics are attributed to a known finding only by panic site and input class.',
                ref='DESIGN.md section 6 C16'),
    'C06': dict(cat='proof', technique='Coq theorems on a Gallina model of the preprocessor line table (one entry per output line, entry = origin) + exact per-run correspondence of the table with the real cpp::process + error injection at known source positions',
                text='The model of cpp::process (validated to reproduce output, line table, literals and errors exactly) carries the line-table theorems; the table is compared with the real one on thousands of inputs full of line-shifting constructs every run; and planted defects of every kind (preprocessor, syntax, semantic, code generation) behind random comments/splices/skipped regions/defines/includes must be reported at their true file, line and include site.',
                ref='DESIGN.md section 6 C06'),
    'C07': dict(cat='proof', technique='Coq theorems on the Gallina model of the conditional machine and #if evaluator + exact correspondence with cpp::process + reference spec_active on random well-nested trees',
                text='Selection of branches for every well-nested tree and inertness of directives in unselected regions are stated on the model (general theorem in Proofs/CondFacts.v when present, pinned examples otherwise); the model is compared exactly with cpp::process each run; thousands of random trees are checked against the property\'s two-line reference. The #if evaluator (integers since fix 9bd62ad) is proved correct on printed numeric conditions (decimal round trip included).',
                ref='DESIGN.md section 6 C07'),
    'C08': dict(cat='proof', technique='Coq theorems on the model of macro replacement (token exactness of the word-boundary replacement, positional arguments) + exact correspondence + reference token-level expander',
                text='Token exactness is proved on the model (Proofs/MacroFacts.v when present); the model is compared exactly with cpp::process on macro-heavy inputs (up to 150 macros, nested calls and parentheses, -D, #undef); expansions are compared with a reference C-like expander. Chains of object-like macros are proved to expand to the full recursive substitution (rank below the 64-round cap). Known finding: a parameter shadowing an earlier macro.',
                ref='DESIGN.md section 6 C08'),
    'C09': dict(cat='proof', technique='Coq theorems (escape table = C, single NUL, literal bodies opaque to the scanner) + exact correspondence of literal extraction and of stored bytes with the models + reference C decoding',
                text='Escape decoding is proved equal to C on the finite escape table and the NUL/concatenation rule by definition; the scanner theorems are in Proofs/ScanFacts.v when present; literal extraction and the bytes the real compiler stores (initialisers, tables, arguments, asm, character constants; every printable character after a backslash) are compared with the extracted models and with C\'s decoding each run.',
                ref='DESIGN.md section 6 C09'),
    'C11': dict(cat='proof', technique='Coq theorems (optimiser never touches comment lines; scanner comment/splice theorems) + exact correspondence of the scanner + metamorphic re-layout of generated programs + co-execution under listing options',
                text='Comment lines are proved untouched by the optimiser; scanner theorems in Proofs/ScanFacts.v when present; every generated program is re-written with comments of many shapes, blank lines, tabs, CR-LF and splices between tokens and must yield identical declarations and instructions; --insert-code / -W must leave -O0 instructions identical and optimised behaviour identical (co-execution).',
                ref='DESIGN.md section 6 C11'),
    'C10': dict(cat='proof', technique='Coq theorems on a Gallina model of the calculator (pest Pratt algorithm + operator table + ?: encoding): all 289 operator pairs grouped as in C for all operand values, unary binds tightest, truth values, division + exact correspondence with parse_calc + reference C evaluator on random expressions',
                text='The general statement is proved: every expression tree built from numbers, the 3 prefix and the 17 non-ternary binary operators, printed with the parentheses C\'s grammar requires (or any redundant ones), is evaluated by the modelled Pratt calculator exactly as C groups it, errors included, with the very fuel calc uses (C10_calc_groups_as_C, by the Pratt-parser invariant); plus every operator pair, truth values, division, ?: and the refutation of nested ?:; with the model compared to the real calculator on thousands of random token sequences and all pairs each run; a reference C evaluator checks random expressions printed with minimal parentheses, literals in every form, and constants folded inside statements.',
                ref='DESIGN.md section 6 C10'),
    'C17': dict(cat='proof', technique='Coq theorems on the asm() model (per-mnemonic port offsets) and on the split-port memory of the 6502 semantics + exhaustive asm() correspondence + co-execution with the split-port memory model switched on against the ordinary-variable twin',
                text='Stores get the write port and every other mnemonic the read port for superchip / 3E / 3E+ variables, ordinary variables none: proved on the model compared exhaustively with asm(); a value written through the write port is read back through the read port and wrong-port accesses fault (memory model theorems); the 25 instruction sequences the generator emits for statements on split-port variables (copies, ++/--, +=, shifts, 16-bit and pointer-variable ++/-- with the carry, X/Y-indexed elements) are proved on the 6502 semantics, for all states, to run without fault and to compute the C result with every other cell unchanged, and are compared with the real -O0 output every run; generated programs with random superchip variables are co-executed with faults enabled and must end like their ordinary twin.',
                ref='DESIGN.md section 6 C17'),
}

NOT_YET = {}

def main():
    props = [json.loads(l) for l in open(os.path.join(ROOT, 'properties.jsonl'))]
    checks = []
    na = []
    for p in props:
        pid = p['id']
        if pid in CLAIMED:
            c = CLAIMED[pid]
            checks.append({
                'property_id': pid,
                'quick_cmd': 'python3 tools/check.py %s --tier quick' % pid,
                'thorough_cmd': 'python3 tools/check.py %s --tier thorough' % pid,
                'evidence_file': 'evidence/%s.json' % pid,
                'replay_cmd_template': 'python3 tools/check.py %s --replay {path}' % pid,
                'engine': 'coq+ccv',
                'level_claimed': {'category': c['cat'], 'text': c['text'], 'design_ref': c['ref']},
                'level_note': c.get('note', TB),
                'technique': c['technique'],
            })
        else:
            na.append({'property_id': pid, 'reason': NOT_YET.get(pid, 'check not built yet in this round (model and theorems planned in DESIGN.md section 6); not claimed until it runs')})
    m = {
        'version': 1,
        'setup_cmd': 'python3 tools/setup.py',
        'hooks': {
            'guard': 'steux_cc6502_verif',
            'enable': 'RUSTFLAGS="--cfg steux_cc6502_verif" cargo build (done by tools/lib/common.py harness_bin for the harness crate, which depends on /repo by path)',
            'baseline_off_cmd': 'cd /repo && cargo test --workspace --no-fail-fast --offline',
            'source_commits': ['79e5d77'],
            'add_only': True,
        },
        'engines': [
            {'name': 'coq', 'path': 'coq/', 'serves_properties': sorted(CLAIMED.keys()), 'kind_free_text': 'Coq 8.16 development: models, proofs, property statements, extraction'},
            {'name': 'ccv', 'path': 'harness/', 'serves_properties': sorted(CLAIMED.keys()), 'kind_free_text': 'Rust harness linked against /repo (path dependency, rebuilt every run, hooks on)'},
            {'name': 'ocaml drivers', 'path': 'ocaml/', 'serves_properties': sorted(CLAIMED.keys()), 'kind_free_text': 'drivers of the extracted models (asm, sem, csem)'},
        ],
        'checks': checks,
        'not_applicable': na,
        'notes': 'All checks go through tools/check.py; evidence is rewritten on every run; known findings in known_findings.json.',
    }
    with open(os.path.join(ROOT, 'MANIFEST.json'), 'w') as f:
        json.dump(m, f, indent=1)
    print('claimed', len(checks), 'not claimed', len(na))

if __name__ == '__main__':
    main()
